(* Property C01 — parsing then re-serialising any spec-valid LSP JSON value loses nothing.
   STATUS: partial (see DESIGN.md C01).  Kernel-checked here, against the tables regenerated from the current tree:
     (1) image facts: every class is the faithful image of its structure (W_img, shared with C04) — so every declared
         property has exactly one attribute with the metamodel's wire name in both directions;
     (2) dispatch totality (W_disp + Disp.disp_total): no input ever ends in an unsupported-type error;
     (3) key rule (SemThy.keys_rule through C10): a successful unstructuring writes every attribute that is not
         (omit-if-default and equal to its default), under its wire name;
     (4) extras at class level are invisible (class_ignores_extras);
     (5) the alias targets that cannot be dispatched are all listed findings.
   The full statement — forall T j, valid mm T j -> exists n o j', structure n (py_of T) j = Ok o /\ unstr n (py_of T) o = Ok j' /\ NEq j j' —
   is kept below as [C01_statement].  ROUND 2: it is PROVED for the covered part of the package in props/Cover.v (compiled with
   this file on every run): [mm_covered_roundtrip] / [mm_covered_roundtrip_structures] — for every covered structure (and every
   covered annotation that is the image of a metamodel type), EVERY closed-valid JSON value parses into a well-typed value that
   serialises back to the input up to null-valued members (LSP.Link: metamodel validity => Python-side validity; LSP.RoundTrip /
   LSP.HookFrag: Python-side validity => round trip; coverage pinned by [cover_not_shrunk]).  Outside the covered part (1 class: WorkspaceSymbolResponse, which reaches the defective symbol-list hook; formerly 22 classes
   that reach a union whose hook is outside the proved fragment; message envelopes: [mm_covered_roundtrip_messages], 163 of 164 message classes) the round trip is
   validated on every run by the correspondence stream (model = real converter on every generated valid input) and the oracle
   on the real converter's results. *)
From LSP Require Import Base MM Sem SemThy Disp Image ImageThy Denote RoundTrip HookFrag Link MMRound.
From Gen Require Import MMData PkgData Known.
From Props Require Import Cover.

(* "equal up to the documented null rule": j' is j with, at most, explicit nulls added for absent object keys *)
Inductive NEq : json -> json -> Prop :=
| ne_null : NEq JNull JNull | ne_bool b : NEq (JBool b) (JBool b) | ne_int z : NEq (JInt z) (JInt z)
| ne_flt n d n' d' : (n * d' = n' * d)%Z -> NEq (JFlt n d) (JFlt n' d')
| ne_int_flt z n d : (z * d = n)%Z -> NEq (JInt z) (JFlt n d)          (* a decimal position given as an integer *)
| ne_str s : NEq (JStr s) (JStr s)
| ne_arr l l' : Forall2 NEq l l' -> NEq (JArr l) (JArr l')
| ne_obj m m' : NoDup (keys m') ->
    (forall k a, assoc k m = Some a -> exists b, assoc k m' = Some b /\ NEq a b) ->
    (forall k b, assoc k m' = Some b -> assoc k m = None -> b = JNull) -> NEq (JObj m) (JObj m').

Definition C01_statement (pystr : json -> string) (target : ty -> option pty) : Prop :=
  forall T p j, target T = Some p -> valid mm T j ->
  exists n o j', structure Sg pystr n p j = Ok o /\ unstr Sg n (Some p) o = Ok j' /\ NEq j j'.

Theorem C01_image : W_img mm Sg alias_objects plain_classes = true.
Proof. vm_compute. reflexivity. Qed.
Theorem C01_dispatch_total : W_disp Sg = true.
Proof. vm_compute. reflexivity. Qed.
Theorem C01_wire_names_both_directions : forall (s : MM.structure), In s (structures mm) -> s_name s <> "LSPObject" ->
  exists fs, assoc (s_name s) (classes Sg) = Some fs /\ NoDup (map fwire fs) /\
    (forall q, In q (flat mm (s_name s)) -> exists f, In f fs /\ fwire f = p_name q /\ fwireo f = p_name q).
Proof.
  intros s Is Hn. destruct (W_img_structures mm Sg alias_objects plain_classes C01_image s Is Hn) as [fs [A [ND [P _]]]].
  exists fs. split; [exact A|]. split; [exact ND|]. intros q Iq. destruct (P q Iq) as [f [If F]]. exists f.
  destruct F. auto.
Qed.
Definition bad_alias_targets : list string :=
  map fst (filter (fun a => match find_alias mm (fst a) with Some _ => negb (good Sg (snd a)) | None => false end) alias_objects).
Theorem C01_bad_alias_targets_are_known : subset bad_alias_targets known_alias_targets_C01 = true.
Proof. vm_compute. reflexivity. Qed.

Section AnyStr.
Variable pystr : json -> string.
Theorem C01_never_unsupported : forall n c fs j, lookup_cls Sg c = Some fs ->
  forall e, structure Sg pystr n (PyCls c) j = Err e -> unsupported e = false.
Proof.
  intros n c fs j L. apply (disp_total Sg pystr C01_dispatch_total n (PyCls c) j).
  exact (class_targets_good Sg C01_dispatch_total c fs L).
Qed.
End AnyStr.

(* ------------------------------------------------------------ the statement, covered part (instances of props/Cover.v) *)
Section Covered.
Variable pystr : json -> string.
(* structures at the class of the same name *)
Theorem C01_roundtrip_structures : forall s st j, find_struct mm s = Some st -> String.eqb s "LSPObject" = false -> mem s (fst cov) = true ->
  cvalid mm (TRef s) j ->
  exists n o j', structure Sg pystr n (PyCls s) j = Ok o /\ has_type Sg (PyCls s) o /\ unstr Sg n (Some (PyCls s)) o = Ok j' /\ RoundTrip.NEq j j'.
Proof. exact (mm_covered_roundtrip_structures pystr). Qed.
(* any metamodel type (aliases, arrays, maps, unions ...) at a covered annotation that is its image *)
Theorem C01_roundtrip_any_type : forall T j p k n, cvalid mm T j -> wfp p = true -> smatch mm Sg alias_objects k (py_of mm n T) p = true ->
  okty Sg (fst cov) (snd cov) p = true ->
  exists n' o j', structure Sg pystr n' p j = Ok o /\ has_type Sg p o /\ unstr Sg n' (Some p) o = Ok j' /\ RoundTrip.NEq j j'.
Proof. exact (mm_covered_roundtrip pystr). Qed.
(* requests, responses, notifications *)
Theorem C01_roundtrip_messages : forall tp j, In tp covered_msg_pairs -> cvalid mm (TLit (snd (fst tp))) j ->
  exists n o j', structure Sg pystr n (PyCls (snd tp)) j = Ok o /\ has_type Sg (PyCls (snd tp)) o /\ unstr Sg n (Some (PyCls (snd tp))) o = Ok j' /\ RoundTrip.NEq j j'.
Proof. exact (mm_covered_roundtrip_messages pystr). Qed.
End Covered.

(* non-vacuity of the statement's hypothesis: a concrete valid value *)
Example C01_example : valid_b mm 20 (TRef "Position") (JObj [("line", JInt 1); ("character", JInt 2)]) = true.
Proof. vm_compute. reflexivity. Qed.

Print Assumptions C01_image.
Print Assumptions C01_dispatch_total.
Print Assumptions C01_wire_names_both_directions.
Print Assumptions C01_bad_alias_targets_are_known.
Print Assumptions C01_never_unsupported.
Print Assumptions C01_roundtrip_structures.
Print Assumptions C01_roundtrip_any_type.
Print Assumptions C01_roundtrip_messages.
