(* Cover.v — the PROVED parse / round-trip theorem for the covered part of the package generated from the current tree
   (shared by C01, C03, C14).  [cov] is the greatest set of classes and hooked union types closed under the two boolean
   checks of LSP.RoundTrip / LSP.HookFrag, computed here by iteration and then CHECKED (cover_table_ok, cover_hooks_ok);
   [covered_parse_roundtrip] is LSP.HookFrag.covered_roundtrip instantiated with it.  [cover_not_shrunk] pins the
   coverage: a class or union of the base package that is not covered must be listed in /verif/cover_expected.json
   (classes that reach a union whose hook is outside the proved fragment, or genuinely defective: see DESIGN.md). *)
From LSP Require Import Base MM Sem SemThy Denote PtyEq RoundTrip HookFrag Image ImageThy Link MMRound Catalog.
From Gen Require Import MMData PkgData Known.

(* the null permission: [NLall] = the Python annotations alone (an Optional member may always be null); [NLmm mm] = the metamodel's
   (only null-admitting properties may carry an explicit null).  The second reading covers more hooks: key-presence dispatch between
   classes that differ in which members are REQUIRED is only right when an optional member cannot be an explicit null. *)
Definition NLall (c k : string) : bool := true.
Definition cov_py : list string * list pty := Eval vm_compute in iter_shrink Sg NLall 16 (cover0 Sg).
(* the metamodel's null-permission table, computed once; [NLm] is LSP.Link.NLmm on it (nl_eq) *)
Definition nltab : list (string * list string) := Eval vm_compute in nl_table mm.
Definition NLm : string -> string -> bool := NLtab nltab.
Lemma nl_eq : NLmm mm = NLm.
Proof. unfold NLmm, NLm. apply f_equal. vm_compute. reflexivity. Qed.
Definition cov : list string * list pty := Eval vm_compute in iter_shrink Sg NLm 16 (cover0 Sg).
Definition uncovered_classes : list string := Eval vm_compute in filter (fun c => negb (mem c (fst cov))) (map fst (classes Sg)).
Definition uncovered_unions : list pty := Eval vm_compute in filter (fun u => negb (existsb (pty_eqb u) (snd cov))) (map fst (uhooks Sg)).

Theorem cover_table_ok : table_ok Sg (fst cov) (snd cov) = true.
Proof. vm_compute. reflexivity. Qed.
Theorem cover_hooks_ok : hooks_ok Sg NLm (fst cov) (snd cov) = true.
Proof. vm_compute. reflexivity. Qed.

(* every Python-valid JSON value of a covered annotation parses (with enough fuel) into a value OF THAT TYPE which serialises
   back to the input up to null-valued members — for all values, all sizes, no bound *)
Theorem covered_parse_roundtrip (pystr : json -> string) : forall P j,
  okty Sg (fst cov) (snd cov) P = true -> pvalid Sg NLm P j ->
  exists n o j', structure Sg pystr n P j = Ok o /\ has_type Sg P o /\ unstr Sg n (Some P) o = Ok j' /\ RoundTrip.NEq j j'.
Proof. exact (covered_roundtrip Sg pystr NLm (fst cov) (snd cov) cover_table_ok cover_hooks_ok). Qed.

(* the same under the Python-only reading (explicit nulls allowed at every Optional member), on its smaller covered part *)
Theorem cover_py_table_ok : table_ok Sg (fst cov_py) (snd cov_py) = true.
Proof. vm_compute. reflexivity. Qed.
Theorem cover_py_hooks_ok : hooks_ok Sg NLall (fst cov_py) (snd cov_py) = true.
Proof. vm_compute. reflexivity. Qed.
Theorem covered_parse_roundtrip_py (pystr : json -> string) : forall P j,
  okty Sg (fst cov_py) (snd cov_py) P = true -> pvalid Sg NLall P j ->
  exists n o j', structure Sg pystr n P j = Ok o /\ has_type Sg P o /\ unstr Sg n (Some P) o = Ok j' /\ RoundTrip.NEq j j'.
Proof. exact (covered_roundtrip Sg pystr NLall (fst cov_py) (snd cov_py) cover_py_table_ok cover_py_hooks_ok). Qed.

Theorem cover_not_shrunk :
  forallb (fun c => mem c expected_uncovered_classes || negb (mem c cover_base_classes)) uncovered_classes
  && forallb (fun u => existsb (pty_eqb u) expected_uncovered_unions || negb (existsb (pty_eqb u) cover_base_unions)) uncovered_unions = true.
Proof. vm_compute. reflexivity. Qed.

(* ---------------------------------------------------------------- the same for METAMODEL-valid values (LSP.Link, LSP.MMRound) *)
Theorem cover_image : W_img mm Sg alias_objects plain_classes = true.
Proof. vm_compute. reflexivity. Qed.
Theorem cover_names_ok : names_ok mm = true.
Proof. vm_compute. reflexivity. Qed.
Theorem cover_fields_ok2 : fields_ok2 Sg = true.
Proof. vm_compute. reflexivity. Qed.

(* every closed-valid value (MM.valid without members at property-less structures; string-literal properties present) of every
   metamodel type T parses at every covered annotation that is the image of T, well-typed, and serialises back up to nulls *)
Theorem mm_covered_roundtrip (pystr : json -> string) : forall T j p k n,
  cvalid mm T j -> wfp p = true -> smatch mm Sg alias_objects k (py_of mm n T) p = true -> okty Sg (fst cov) (snd cov) p = true ->
  exists n' o j', structure Sg pystr n' p j = Ok o /\ has_type Sg p o /\ unstr Sg n' (Some p) o = Ok j' /\ RoundTrip.NEq j j'.
Proof. pose proof cover_hooks_ok as H. rewrite <- nl_eq in H. exact (mm_roundtrip mm Sg alias_objects plain_classes pystr (fst cov) (snd cov) cover_image cover_names_ok cover_fields_ok2 cover_table_ok H). Qed.

(* structures of the metamodel at the class of the same name *)
Theorem mm_covered_roundtrip_structures (pystr : json -> string) : forall s st j,
  find_struct mm s = Some st -> String.eqb s "LSPObject" = false -> mem s (fst cov) = true -> cvalid mm (TRef s) j ->
  exists n' o j', structure Sg pystr n' (PyCls s) j = Ok o /\ has_type Sg (PyCls s) o /\ unstr Sg n' (Some (PyCls s)) o = Ok j' /\ RoundTrip.NEq j j'.
Proof. pose proof cover_hooks_ok as H. rewrite <- nl_eq in H. exact (mm_roundtrip_structure mm Sg alias_objects plain_classes pystr (fst cov) (snd cov) cover_image cover_names_ok cover_fields_ok2 cover_table_ok H). Qed.

(* message envelopes (requests, responses, notifications): literal types of the metamodel side (MM.request_ty / response_ty /
   notification_ty); their classes are not images in the strict sense of smatch (a params attribute even when the message has
   none, defaults without validators) but correspond in the weak sense of Link.CorrW, which suffices for validity *)
Definition row_of_m (m : string) : option Catalog.catrow := find (fun r => String.eqb (Catalog.cm_method r) m) catalogue.
Definition lit_props (t : ty) : list (string * ty * bool) := match t with TLit ps => ps | _ => [] end.
Definition msg_pairs : list (string * list (string * ty * bool) * string) :=
  app (flat_map (fun r => match row_of_m (r_method r) with
                     | Some row => app (match Catalog.cm_cls row with Some c => [(r_method r, lit_props (request_ty r), c)] | None => [] end)
                                       (match Catalog.cm_resp row with Some c => [(r_method r, lit_props (response_ty r), c)] | None => [] end)
                     | None => [] end) (requests mm))
      (flat_map (fun x => match row_of_m (n_method x) with
                        | Some row => match Catalog.cm_cls row with Some c => [(n_method x, lit_props (notification_ty x), c)] | None => [] end
                        | None => [] end) (notifications mm)).
Definition msg_pair_ok (tp : string * list (string * ty * bool) * string) : bool :=
  let c := snd tp in
  match lookup_cls Sg c with
  | Some fs => none (find_struct mm c) && corrw_b mm Sg alias_objects (props_of_lit (snd (fst tp))) fs && mem c (fst cov)
  | None => false end.
Definition covered_msg_pairs := Eval vm_compute in filter msg_pair_ok msg_pairs.
Definition uncovered_msg_classes : list string := Eval vm_compute in map snd (filter (fun tp => negb (msg_pair_ok tp)) msg_pairs).
Theorem covered_msg_pairs_ok : forallb msg_pair_ok covered_msg_pairs = true.
Proof. vm_compute. reflexivity. Qed.
(* every closed-valid request / response / notification envelope of a covered message class parses, is well-typed and serialises back *)
Theorem mm_covered_roundtrip_messages (pystr : json -> string) : forall tp j, In tp covered_msg_pairs -> cvalid mm (TLit (snd (fst tp))) j ->
  exists n' o j', structure Sg pystr n' (PyCls (snd tp)) j = Ok o /\ has_type Sg (PyCls (snd tp)) o /\ unstr Sg n' (Some (PyCls (snd tp))) o = Ok j' /\ RoundTrip.NEq j j'.
Proof.
  intros tp j I V. pose proof covered_msg_pairs_ok as H. rewrite forallb_forall in H. specialize (H tp I). unfold msg_pair_ok in H.
  destruct (lookup_cls Sg (snd tp)) as [fs|] eqn:L; [|discriminate].
  apply andb_true_iff in H. destruct H as [H G]. apply andb_true_iff in H. destruct H as [NS CB]. apply none_eq in NS.
  pose proof cover_hooks_ok as HK. rewrite <- nl_eq in HK.
  exact (mm_roundtrip_literal mm Sg alias_objects plain_classes pystr (fst cov) (snd cov) cover_image cover_names_ok cover_fields_ok2 cover_table_ok HK
           (snd (fst tp)) (snd tp) fs j L NS CB G V).
Qed.
(* the message classes outside this theorem are exactly the expected ones (the response class that reaches the defective hook) *)
Theorem msg_cover_not_shrunk : forallb (fun c => mem c expected_uncovered_classes || negb (mem c cover_base_classes)) uncovered_msg_classes = true.
Proof. vm_compute. reflexivity. Qed.
Example covered_msg_pairs_nonempty : Nat.leb 150 (length covered_msg_pairs) = true.
Proof. vm_compute. reflexivity. Qed.

Example mm_structures_nonvacuous :
  Nat.leb 300 (length (filter (fun s => mem (s_name s) (fst cov)) (structures mm))) = true.
Proof. vm_compute. reflexivity. Qed.
Example mm_example_value : cvalid mm (TRef "Position") (JObj [("line", JInt 1); ("character", JInt 2)]).
Proof.
  eapply c_obj; [vm_compute; reflexivity | discriminate | repeat constructor; cbn; intuition discriminate | repeat constructor; cbn; intuition discriminate | |].
  - intros k v [E|[E|[]]]; inversion E; subst; clear E.
    + eexists. split; [left; reflexivity|]. split; [reflexivity|]. constructor. reflexivity.
    + eexists. split; [right; left; reflexivity|]. split; [reflexivity|]. constructor. reflexivity.
  - intros p [<-|[<-|[]]] _; cbn; auto.
Qed.

(* non-vacuity: the covered part is most of the package, and a concrete covered type with a concrete valid value *)
Example cover_nonempty : Nat.leb 400 (length (fst cov)) = true /\ okty Sg (fst cov) (snd cov) (PyCls "InitializeParams") = true.
Proof. split; vm_compute; reflexivity. Qed.
Definition pos_fs : list fld := Eval vm_compute in match lookup_cls Sg "Position" with Some fs => fs | None => [] end.
Definition pos_fld (k : string) : fld :=
  match find (fun f => String.eqb (fwire f) k) pos_fs with Some f => f | None => Build_fld "" "" "" PyAny NoDefault VNoVal false false end.
Example cover_example_value : pvalid Sg NLm (PyCls "Position") (JObj [("line", JInt 1); ("character", JInt 2)]).
Proof.
  apply (pv_cls Sg NLm "Position" pos_fs); [vm_compute; reflexivity | repeat constructor; cbn; intuition discriminate | |].
  - intros k v [E|[E|[]]]; inversion E; clear E;
      match goal with |- exists f, _ /\ fwire f = ?K /\ _ => exists (pos_fld K) end;
      (split; [vm_compute; tauto | split; [reflexivity | split; [vm_compute; constructor | split; [vm_compute; reflexivity | discriminate]]]]).
  - intros f If M. vm_compute in If. destruct If as [<-|[<-|[]]]; vm_compute; tauto.
Qed.

Print Assumptions cover_table_ok.
Print Assumptions cover_hooks_ok.
Print Assumptions covered_parse_roundtrip.
Print Assumptions cover_not_shrunk.
Print Assumptions mm_covered_roundtrip.
Print Assumptions mm_covered_roundtrip_structures.
Print Assumptions mm_covered_roundtrip_messages.
Print Assumptions msg_cover_not_shrunk.
