(* Cover.v — the PROVED parse / round-trip theorem for the covered part of the package generated from the current tree
   (shared by C01, C03, C14).  [cov] is the greatest set of classes and hooked union types closed under the two boolean
   checks of LSP.RoundTrip / LSP.HookFrag, computed here by iteration and then CHECKED (cover_table_ok, cover_hooks_ok);
   [covered_parse_roundtrip] is LSP.HookFrag.covered_roundtrip instantiated with it.  [cover_not_shrunk] pins the
   coverage: a class or union of the base package that is not covered must be listed in /verif/cover_expected.json
   (classes that reach a union whose hook is outside the proved fragment, or genuinely defective: see DESIGN.md). *)
From LSP Require Import Base Sem SemThy Denote PtyEq RoundTrip HookFrag.
From Gen Require Import PkgData Known.

Definition cov : list string * list pty := Eval vm_compute in iter_shrink Sg 16 (cover0 Sg).
Definition uncovered_classes : list string := Eval vm_compute in filter (fun c => negb (mem c (fst cov))) (map fst (classes Sg)).
Definition uncovered_unions : list pty := Eval vm_compute in filter (fun u => negb (existsb (pty_eqb u) (snd cov))) (map fst (uhooks Sg)).

Theorem cover_table_ok : table_ok Sg (fst cov) (snd cov) = true.
Proof. vm_compute. reflexivity. Qed.
Theorem cover_hooks_ok : hooks_ok Sg (fst cov) (snd cov) = true.
Proof. vm_compute. reflexivity. Qed.

(* every Python-valid JSON value of a covered annotation parses (with enough fuel) into a value OF THAT TYPE which serialises
   back to the input up to null-valued members — for all values, all sizes, no bound *)
Theorem covered_parse_roundtrip (pystr : json -> string) : forall P j,
  okty Sg (fst cov) (snd cov) P = true -> pvalid Sg P j ->
  exists n o j', structure Sg pystr n P j = Ok o /\ has_type Sg P o /\ unstr Sg n (Some P) o = Ok j' /\ RoundTrip.NEq j j'.
Proof. exact (covered_roundtrip Sg pystr (fst cov) (snd cov) cover_table_ok cover_hooks_ok). Qed.

Theorem cover_not_shrunk :
  forallb (fun c => mem c expected_uncovered_classes || negb (mem c cover_base_classes)) uncovered_classes
  && forallb (fun u => existsb (pty_eqb u) expected_uncovered_unions || negb (existsb (pty_eqb u) cover_base_unions)) uncovered_unions = true.
Proof. vm_compute. reflexivity. Qed.

(* non-vacuity: the covered part is most of the package, and a concrete covered type with a concrete valid value *)
Example cover_nonempty : Nat.leb 400 (length (fst cov)) = true /\ okty Sg (fst cov) (snd cov) (PyCls "InitializeParams") = true.
Proof. split; vm_compute; reflexivity. Qed.
Definition pos_fs : list fld := Eval vm_compute in match lookup_cls Sg "Position" with Some fs => fs | None => [] end.
Definition pos_fld (k : string) : fld :=
  match find (fun f => String.eqb (fwire f) k) pos_fs with Some f => f | None => Build_fld "" "" "" PyAny NoDefault VNoVal false false end.
Example cover_example_value : pvalid Sg (PyCls "Position") (JObj [("line", JInt 1); ("character", JInt 2)]).
Proof.
  apply (pv_cls Sg "Position" pos_fs); [vm_compute; reflexivity | repeat constructor; cbn; intuition discriminate | |].
  - intros k v [E|[E|[]]]; inversion E; clear E;
      match goal with |- exists f, _ /\ fwire f = ?K /\ _ => exists (pos_fld K) end;
      (split; [vm_compute; tauto | split; [reflexivity | split; [vm_compute; constructor | vm_compute; reflexivity]]]).
  - intros f If M. vm_compute in If. destruct If as [<-|[<-|[]]]; vm_compute; tauto.
Qed.

Print Assumptions cover_table_ok.
Print Assumptions cover_hooks_ok.
Print Assumptions covered_parse_roundtrip.
Print Assumptions cover_not_shrunk.
