(* Property C17 — every generated test vector is labelled with its true metamodel validity.

   What is proved here, for the metamodel translated from the current generator/lsp.json (Gen.MMData.mm), for EVERY JSON value,
   every fuel, every message class — no bound:
     - the boolean validators decide strict validity:  valid_b (payloads) and msg_valid_b (messages) are sound and complete
       for MM.valid / Strict.msg_valid (generic theorems of LSP.ValidB / LSP.Strict, instantiated through C17_mm_wf);
     - the function the harness evaluates on each vector, Strict.vector_code, returns 0 only when the label IS the validity
       of the content for the class named in the file name (C17_code_0), and returns 1/2 only when it is NOT
       (C17_code_mislabelled); 3 = fuel exhausted and 4 = unknown class are reported as such by the harness.
   What the harness adds on every run (lib/props/c17.py): it evaluates vector_code by vm_compute on the vectors the testdata
   plugin really emits (CasesC17_*.v, each with a kernel-checked lemma `shard_agrees` when all its labels agree), checks the
   file-name format, the coverage lemma on the real file list (C17Cover.v), and acceptance of the True vectors by the real
   converter.
   History stream (lib/c17_history.py): every theorem of LSP.ValidB / LSP.Strict used below is generic in the metamodel, so for
   each EVOLVED sub-model m_i of a history the harness translates m_i (Gen/C17H<h>S<i>.v), re-proves the side conditions and the
   two verdict theorems for it (Props/C17H<h>S<i>Wf.v: C17_hist_mm_wf, C17_hist_classes_distinct, C17_hist_code_0,
   C17_hist_code_mislabelled, each "Closed under the global context") and evaluates vector_code on the files found in an output
   directory that was populated for m_(i-1) before the plugin ran for m_i. *)
From LSP Require Import Base MM ValidB Strict.
From Gen Require Import MMData.
Open Scope string_scope.

(* the side condition forced by completeness (see ValidB.v): alias / enumeration / structure names do not collide and no
   enumeration is called LSPObject or LSPArray — holds for the current metamodel *)
Lemma C17_mm_wf : mm_wf mm = true.
Proof. vm_compute. reflexivity. Qed.

(* the file-name prefix determines the message class: class names are pairwise distinct, every entry has a typeName *)
Lemma C17_classes_distinct : nodupb (map fst (msg_classes mm)) = true.
Proof. vm_compute. reflexivity. Qed.
Lemma C17_all_entries_named : unnamed_entries mm = 0.
Proof. vm_compute. reflexivity. Qed.

Theorem C17_payload_checker_sound : forall n t j, valid_b mm n t j = true -> valid mm t j.
Proof. exact (valid_b_sound mm). Qed.
Theorem C17_payload_checker_mono : forall n m t j, n <= m -> valid_b mm n t j = true -> valid_b mm m t j = true.
Proof. exact (valid_b_mono mm). Qed.
Theorem C17_payload_checker_complete : forall t j, valid mm t j -> exists n, valid_b mm n t j = true.
Proof. exact (valid_b_complete mm C17_mm_wf). Qed.

Theorem C17_message_checker_sound : forall n k j, msg_valid_b mm n k j = true -> msg_valid mm k j.
Proof. exact (msg_valid_b_sound mm). Qed.
Theorem C17_message_checker_complete : forall k j, msg_valid mm k j -> exists n, msg_valid_b mm n k j = true.
Proof. exact (msg_valid_b_complete mm C17_mm_wf). Qed.
Theorem C17_message_decision : forall n k j b, msg_valid_d mm n k j = Some b -> (msg_valid mm k j <-> b = true).
Proof. exact (msg_valid_d_correct mm C17_mm_wf). Qed.

Theorem C17_code_0 : forall fuel cls label j, vector_code mm fuel cls label j = 0 ->
  exists k, find_msg mm cls = Some k /\ (msg_valid mm k j <-> label = true).
Proof. exact (vector_code_0 mm C17_mm_wf). Qed.
Theorem C17_code_mislabelled : forall fuel cls label j c, vector_code mm fuel cls label j = c -> (c = 1 \/ c = 2) ->
  exists k, find_msg mm cls = Some k /\ ~ (msg_valid mm k j <-> label = true).
Proof. exact (vector_code_mislabelled mm C17_mm_wf). Qed.

(* non-vacuity: a concrete valid and a concrete invalid message of a real class *)
Definition hover (character : Z) : json :=
  JObj [("jsonrpc", JStr "2.0"); ("id", JInt 1); ("method", JStr "textDocument/hover");
        ("params", JObj [("textDocument", JObj [("uri", JStr "file:///a.py")]);
                         ("position", JObj [("line", JInt 0); ("character", JInt character)])])].

Example C17_example_valid : exists k, find_msg mm "HoverRequest" = Some k /\ msg_valid mm k (hover 2147483647).
Proof.
  destruct (C17_code_0 200 "HoverRequest" true (hover 2147483647)) as [k [F V]]; [vm_compute; reflexivity|].
  exists k. split; [exact F | apply V; reflexivity].
Qed.
Example C17_example_invalid : exists k, find_msg mm "HoverRequest" = Some k /\ ~ msg_valid mm k (hover 2147483648).
Proof.
  destruct (C17_code_0 200 "HoverRequest" false (hover 2147483648)) as [k [F V]]; [vm_compute; reflexivity|].
  exists k. split; [exact F|]. intros M. apply V in M. discriminate.
Qed.
(* ... and the checker would catch the wrong label *)
Example C17_example_mislabelled : vector_code mm 200 "HoverRequest" true (hover 2147483648) = 1
                                  /\ vector_code mm 200 "HoverRequest" false (hover 0) = 2.
Proof. split; vm_compute; reflexivity. Qed.
(* notification with an id, response with a wrong error object, request id out of range *)
Example C17_example_envelopes :
  vector_code mm 200 "ExitNotification" true (JObj [("jsonrpc", JStr "2.0"); ("method", JStr "exit")]) = 0
  /\ vector_code mm 200 "ExitNotification" false (JObj [("jsonrpc", JStr "2.0"); ("id", JInt 1); ("method", JStr "exit")]) = 0
  /\ vector_code mm 200 "ShutdownRequest" false (JObj [("jsonrpc", JStr "2.0"); ("id", JInt 2147483648); ("method", JStr "shutdown")]) = 0
  /\ vector_code mm 200 "ShutdownRequest" true (JObj [("jsonrpc", JStr "2.0"); ("id", JStr "a"); ("method", JStr "shutdown"); ("params", JNull)]) = 0
  /\ vector_code mm 200 "ShutdownResponse" false
       (JObj [("jsonrpc", JStr "2.0"); ("id", JInt 1); ("result", JNull); ("error", JObj [("code", JInt 1)])]) = 0.
Proof. repeat split; vm_compute; reflexivity. Qed.

Print Assumptions C17_mm_wf.
Print Assumptions C17_classes_distinct.
Print Assumptions C17_all_entries_named.
Print Assumptions C17_payload_checker_sound.
Print Assumptions C17_payload_checker_mono.
Print Assumptions C17_payload_checker_complete.
Print Assumptions C17_message_checker_sound.
Print Assumptions C17_message_checker_complete.
Print Assumptions C17_message_decision.
Print Assumptions C17_code_0.
Print Assumptions C17_code_mislabelled.
Print Assumptions C17_example_valid.
Print Assumptions C17_example_invalid.
Print Assumptions C17_example_mislabelled.
Print Assumptions C17_example_envelopes.
