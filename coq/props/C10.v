(* Property C10 — null-versus-omitted rule for every property of every class.
   keys_rule (LSP.SemThy, for every table / callback / object) composed with the image facts of C04 (FieldSpec of every
   flattened property of every structure, re-proved on every run) and the envelope facts of C09's catalogue. *)
From LSP Require Import Base MM Sem SemThy Catalog Image ImageThy CatSpec.
From Gen Require Import MMData PkgData.

Theorem C10_image : W_img mm Sg alias_objects plain_classes = true.
Proof. vm_compute. reflexivity. Qed.
Theorem C10_wire_out_unique : forallb (fun c => nodupb (map fwireo (snd c))) (classes Sg) = true.
Proof. vm_compute. reflexivity. Qed.

Definition is_vnone (x : pv) : bool := match x with VNone => true | _ => false end.
Lemma default_none_iff x : pv_is_default DefaultNone x = is_vnone x. Proof. destruct x; reflexivity. Qed.

(* the omit flag and default of a correct attribute, in metamodel terms *)
Lemma omit_rule q x :
  (negb (is_special q) && pv_is_default (expected_default q) x) = (negb (is_special q) && p_opt q && is_vnone x).
Proof.
  unfold is_special, expected_default, is_optional.
  destruct (p_type q) as [b| | | | |l| | | | |]; try (destruct (p_opt q); destruct x; reflexivity).
  - destruct b; destruct (p_opt q); destruct x; reflexivity.
  - destruct (null_admitting (TOr l)); destruct (p_opt q); destruct x; reflexivity.
Qed.

(* Serialising: for every structure, every flattened property q, every instance whose unstructuring succeeds:
   the key q is LEFT OUT iff the attribute is None, q is optional in the metamodel and q's type admits no null
   (literal discriminators and null-admitting properties are always written). *)
Theorem C10_key_rule : forall (s : MM.structure) q rec c' vals j,
  In s (structures mm) -> s_name s <> "LSPObject" -> In q (flat mm (s_name s)) ->
  ustep Sg rec (Some (PyCls (s_name s))) (VObj c' vals) = Ok j ->
  exists kvs f x, j = JObj kvs /\ fwire f = p_name q /\ assoc (fname f) vals = Some x /\
    (In (p_name q) (keys kvs) <-> (negb (is_special q) && p_opt q && is_vnone x) = false).
Proof.
  intros s q rec c' vals j Is Hn Iq H.
  destruct (W_img_structures mm Sg alias_objects plain_classes C10_image s Is Hn) as [fs [A [ND [P _]]]].
  destruct (P q Iq) as [f [If F]]. destruct F as [Fw Fo Fd _ _ _ Fom].
  assert (NDo : NoDup (map fwireo fs)).
  { pose proof C10_wire_out_unique as U. rewrite forallb_forall in U. apply assoc_in in A. specialize (U _ A). apply nodupb_NoDup. exact U. }
  destruct (keys_rule Sg rec (s_name s) c' fs vals j A NDo H) as [kvs [-> K]].
  destruct (unstr_attrs_present Sg rec (s_name s) c' fs vals _ A H f If) as [x Ax].
  exists kvs, f, x. split; [reflexivity|]. split; [exact Fw|]. split; [exact Ax|].
  rewrite <- omit_rule, <- Fd, <- Fo.
  assert (EQ : (fomit f && pv_is_default (fdefault f) x) = (negb (is_special q) && pv_is_default (fdefault f) x)).
  { destruct (fdefault f) eqn:D; [cbn [pv_is_default]; rewrite !andb_false_r; reflexivity | rewrite Fom; [reflexivity | discriminate] ..]. }
  rewrite <- EQ. split.
  - intros I. apply (K f If) in I. destruct I as [x' [Ax' O]]. rewrite Ax in Ax'. inversion Ax'; subst x'. exact O.
  - intros O. apply (K f If). exists x. split; [exact Ax | exact O].
Qed.

(* always written: literal discriminators and null-admitting properties *)
Corollary C10_special_always_written : forall (s : MM.structure) q rec c' vals j,
  In s (structures mm) -> s_name s <> "LSPObject" -> In q (flat mm (s_name s)) -> is_special q = true ->
  ustep Sg rec (Some (PyCls (s_name s))) (VObj c' vals) = Ok j -> exists kvs, j = JObj kvs /\ In (p_name q) (keys kvs).
Proof.
  intros s q rec c' vals j Is Hn Iq Sp H. destruct (C10_key_rule s q rec c' vals j Is Hn Iq H) as [kvs [f [x [-> [_ [_ R]]]]]].
  exists kvs. split; [reflexivity|]. apply R. rewrite Sp. reflexivity.
Qed.

(* Parsing: an absent null-admitting or literal property is accepted and reads as None / its literal *)
Theorem C10_absent_special_reads_default : forall (s : MM.structure) q fs rec m,
  In s (structures mm) -> s_name s <> "LSPObject" -> In q (flat mm (s_name s)) -> is_special q = true ->
  assoc (s_name s) (classes Sg) = Some fs -> assoc (p_name q) m = None ->
  exists f, In f fs /\ fwire f = p_name q /\
    sfield rec (JObj m) f = Ok (fname f, match p_type q with TStrLit lit => VStr lit | _ => VNone end).
Proof.
  intros s q fs rec m Is Hn Iq Sp A Ab.
  destruct (W_img_structures mm Sg alias_objects plain_classes C10_image s Is Hn) as [fs' [A' [_ [P _]]]].
  rewrite A in A'. inversion A'; subst fs'. destruct (P q Iq) as [f [If F]]. destruct F as [Fw _ Fd _ _ _ _].
  exists f. split; [exact If|]. split; [exact Fw|].
  rewrite <- Fw in Ab. rewrite (absent_reads_default rec m f Ab).
  - rewrite Fd. unfold expected_default, is_special, is_optional in *.
    destruct (p_type q); try reflexivity; rewrite ?Sp, ?orb_true_r; reflexivity.
  - rewrite Fd. unfold expected_default, is_special, is_optional in *.
    destruct (p_type q); try discriminate; rewrite ?Sp, ?orb_true_r; discriminate.
Qed.

(* Envelopes: in every message class of the catalogue, `method`, `jsonrpc` (and a response's `result`) are never omitted *)
Definition never_omitted (c : string) (wires : list string) : bool :=
  match assoc c (classes Sg) with
  | Some fs => forallb (fun w => match find (fun f => String.eqb (fwireo f) w) fs with Some f => negb (fomit f) | None => false end) wires
  | None => false end.
(* the id of a request / response is a required member of the envelope: it has no default (so it cannot be omitted as "equal to its
   default") or is not omit-if-default *)
Definition id_always_written (c : string) : bool :=
  match assoc c (classes Sg) with
  | Some fs => match find (fun f => String.eqb (fwireo f) "id") fs with
               | Some f => negb (fomit f) || match fdefault f with NoDefault => true | _ => false end
               | None => false end
  | None => false end.
Definition envelope_rows_ok : bool :=
  forallb (fun row => match cm_cls row with Some c => never_omitted c ["method"; "jsonrpc"] | None => false end
                      && match cm_resp row with Some c => never_omitted c ["result"; "jsonrpc"] && id_always_written c
                                                                 && match cm_cls row with Some q => id_always_written q | None => false end
                         | None => true end) catalogue.
Theorem C10_envelope_flags : envelope_rows_ok = true /\ length catalogue = length (requests mm) + length (notifications mm).
Proof. vm_compute. split; reflexivity. Qed.
(* ... and in EVERY class that has such an attribute at all, catalogue or not (the generic error envelope ResponseErrorMessage is
   not a row of the method catalogue): `jsonrpc` and `method` are never omitted *)
Definition envelope_attrs_bad : list (string * string) :=
  flat_map (fun c => flat_map (fun f => if (String.eqb (fwireo f) "jsonrpc" || String.eqb (fwireo f) "method")
                                            && negb (mem (fst c) (map s_name (structures mm))) && fomit f
                                        then [(fst c, fwireo f)] else []) (snd c)) (classes Sg).
Theorem C10_envelope_attributes_everywhere : envelope_attrs_bad = [].
Proof. vm_compute. reflexivity. Qed.
(* a field with omit_if_default off is written by every successful unstructuring (generic) *)
Theorem C10_not_omittable_is_written : forall rec c c' fds vals j f,
  lookup_cls Sg c = Some fds -> NoDup (map fwireo fds) -> In f fds -> fomit f = false ->
  ustep Sg rec (Some (PyCls c)) (VObj c' vals) = Ok j -> exists kvs, j = JObj kvs /\ In (fwireo f) (keys kvs).
Proof.
  intros rec c c' fds vals j f L ND If O H. destruct (keys_rule Sg rec c c' fds vals j L ND H) as [kvs [-> K]].
  exists kvs. split; [reflexivity|]. apply (K f If).
  destruct (unstr_attrs_present Sg rec c c' fds vals _ L H f If) as [x Ax]. exists x. split; [exact Ax | rewrite O; reflexivity].
Qed.

Example C10_example :
  existsb (fun s => existsb (fun q => is_special q) (flat mm (s_name s))) (structures mm) = true /\
  existsb (fun s => existsb (fun q => negb (is_special q) && p_opt q) (flat mm (s_name s))) (structures mm) = true.
Proof. vm_compute. split; reflexivity. Qed.

Print Assumptions C10_key_rule.
Print Assumptions C10_special_always_written.
Print Assumptions C10_absent_special_reads_default.
Print Assumptions C10_envelope_flags.
Print Assumptions C10_envelope_attributes_everywhere.
Print Assumptions C10_not_omittable_is_written.
